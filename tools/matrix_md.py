#!/usr/bin/env python3
"""render seeded/matrix.json as the "Mutation matrix" section at the end of DESIGN.md (replaces the
text between the markers)"""
import json, os, re
V = "/verif"
m = json.load(open(f"{V}/seeded/matrix.json"))
BEGIN, END = "<!-- matrix:begin -->", "<!-- matrix:end -->"


def own_of(k):
    if k.startswith("D"):
        meta = {"D4": "C20", "D9": "C20", "D12": "C06", "D14": "C20", "D16": "C17"}
        return meta.get(k, "C19")
    return k[:3]


rows = []
tot = caught_own = with_input = full = any_caught = 0
infra = []
for k in sorted(m, key=lambda x: (x[0] != "C", x[:3], x)):
    if not os.path.exists(f"{V}/seeded/{k}/patch.diff"):
        continue
    r = m[k]
    if "error" in r:
        rows.append(f"| {k} | patch does not apply | | |")
        continue
    own = own_of(k)
    o = r.get(own, {})
    tot += 1
    caught_own += o.get("rc") == 1
    with_input += bool(o.get("with_failing_input"))
    others = sorted(p for p, v in r.items() if isinstance(v, dict) and v.get("rc") == 1 and p != own)
    others_fi = [p for p in others if r[p].get("with_failing_input")]
    infra += [(k, p) for p, v in r.items() if isinstance(v, dict) and v.get("rc") == 2]
    ownc = "**missed**" if o.get("rc") != 1 else ("failing input" if o.get("with_failing_input") else "no-failing-input-found")
    oth = ", ".join(p + ("" if p in others_fi else "°") for p in others) or "—"
    if r.get("own_only") or set(k2 for k2, v2 in r.items() if isinstance(v2, dict)) <= {own}:
        oth = "(not run)"
    else:
        full += 1
        any_caught += bool(others) or o.get("rc") == 1
    rows.append(f"| {k} | {own} | {ownc} | {oth} |")

text = f"""{BEGIN}
## Mutation matrix

`tools/matrix.py` on the final tree, on scratch worktrees, corpus on, change-triggered factor off
(`VERIF_NO_ESCALATION=1`, i.e. the plain quick tier). Every seeded change (and the reverse of every repair) is run
against the check of the property it was written to break ("own check"); the changes of round 12 (composition) and
the reverses of the repairs are also run against all twenty checks ("also alarmed"; ° = without a failing input) —
for the other rounds that column says "(not run)" (an earlier full cross run over the first 139 changes is
described in §9). {caught_own} of {tot} changes are reported by their own check, {with_input} of them with a concrete
failing input on the real code (the others with `no-failing-input-found`: a broken correspondence or theorem without
a property clause failing on the cases drawn). Of the {full} changes run against everything, {any_caught} are reported
by at least one check. A change marked **missed** in the own-check column is a round-12 change (whose own
property is by construction not the one that owns the composition — see "also alarmed"), a change that another
property's check reports (C01r, C02y, C09u, C10p: "also alarmed"), C19q (reported only with the change-triggered
factor on, which is the default whenever the anchored source differs — the matrix is run with it off), or one of the
five changes reported by no check at all: C07p, C12p, C15s, C16s, C18p (§9: uses of the library no harness models). Exit 2 (infrastructure) anywhere in the matrix: {('none' if not infra else ', '.join(f'{a}→{b}' for a, b in infra))}.

| change | property | own check | also alarmed |
|---|---|---|---|
""" + "\n".join(rows) + f"\n{END}\n"

p = f"{V}/DESIGN.md"
s = open(p).read()
if BEGIN in s:
    s = re.sub(re.escape(BEGIN) + ".*?" + re.escape(END) + "\n?", lambda _: text, s, flags=re.S)
else:
    s = s.rstrip("\n") + "\n\n\n" + text
open(p, "w").write(s)
print(f"{caught_own}/{tot} own, {with_input} with failing input, infra {infra}")
