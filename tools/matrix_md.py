#!/usr/bin/env python3
"""render seeded/matrix.json as the "Mutation matrix" section at the end of DESIGN.md (replaces the
text between the markers)"""
import json, os, re
V = "/verif"
m = json.load(open(f"{V}/seeded/matrix.json"))
BEGIN, END = "<!-- matrix:begin -->", "<!-- matrix:end -->"


def own_of(k):
    if k.startswith("D"):
        meta = {"D4": "C20", "D9": "C20", "D12": "C06", "D14": "C20", "D16": "C17"}
        return meta.get(k, "C19")
    return k[:3]


rows = []
tot = caught_own = with_input = 0
infra = []
for k in sorted(m, key=lambda x: (x[0] != "C", x[:3], x)):
    if not os.path.exists(f"{V}/seeded/{k}/patch.diff"):
        continue
    r = m[k]
    if "error" in r:
        rows.append(f"| {k} | patch does not apply | | |")
        continue
    own = own_of(k)
    o = r.get(own, {})
    tot += 1
    caught_own += o.get("rc") == 1
    with_input += bool(o.get("with_failing_input"))
    others = sorted(p for p, v in r.items() if isinstance(v, dict) and v.get("rc") == 1 and p != own)
    others_fi = [p for p in others if r[p].get("with_failing_input")]
    infra += [(k, p) for p, v in r.items() if isinstance(v, dict) and v.get("rc") == 2]
    ownc = "**missed**" if o.get("rc") != 1 else ("failing input" if o.get("with_failing_input") else "no-failing-input-found")
    oth = ", ".join(p + ("" if p in others_fi else "°") for p in others) or "—"
    rows.append(f"| {k} | {own} | {ownc} | {oth} |")

text = f"""{BEGIN}
## Mutation matrix

`tools/matrix.py` on the final tree: every seeded change (and the reverse of every repair) against
the quick tier of all twenty checks, on scratch worktrees, corpus on, change-triggered factor off
(`VERIF_NO_ESCALATION=1`, i.e. the plain quick tier). {caught_own} of {tot} changes are reported by the
check of the property they break, {with_input} of them with a concrete failing input on the real code
(the others with `no-failing-input-found`: a broken correspondence or theorem without a property
clause failing on the cases drawn). "Also alarmed" lists other properties' checks that exit 1 on
the same change (° = without a failing input); a change usually breaks several properties at once
(a multiplexer defect shows in C04/C05, C06's tree comparison, C14, C16 and C01), and the masks of
§3 are what keeps that list short. Exit 2 (infrastructure) anywhere in the matrix: {('none' if not infra else ', '.join(f'{a}→{b}' for a, b in infra))}.

| change | property | own check | also alarmed |
|---|---|---|---|
""" + "\n".join(rows) + f"\n{END}\n"

p = f"{V}/DESIGN.md"
s = open(p).read()
if BEGIN in s:
    s = re.sub(re.escape(BEGIN) + ".*?" + re.escape(END) + "\n?", lambda _: text, s, flags=re.S)
else:
    s = s.rstrip("\n") + "\n\n\n" + text
open(p, "w").write(s)
print(f"{caught_own}/{tot} own, {with_input} with failing input, infra {infra}")
