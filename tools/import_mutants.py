#!/usr/bin/env python3
"""verify the sub-agents' seeded changes against the current /repo HEAD in a scratch worktree and
copy the confirmed ones to /verif/seeded/<id>/ (patch.diff, demo.py, meta.json)"""
import json, os, subprocess, sys, shutil
WT = "/tmp/wt/verify"
PY = "/venv/bin/python"


def sh(cmd, cwd=WT, timeout=600):
    p = subprocess.run(cmd, cwd=cwd, shell=True, capture_output=True, text=True, timeout=timeout)
    return p.returncode, (p.stdout + p.stderr)


def main():
    out = {}
    for n in range(1, 21):
        cid = f"C{n:02d}"
        if os.environ.get("IMPORT_ONLY") and cid not in os.environ["IMPORT_ONLY"].split(","):
            continue
        for v in (sys.argv[1:] or ["a", "b"]):
            src = f"/tmp/wt/{cid}/out/{v}"
            if not (os.path.exists(f"{src}/patch.diff") and os.path.exists(f"{src}/meta.json") and os.path.exists(f"{src}/demo.py")):
                continue
            mid = f"{cid}{v}"
            sh("git checkout -q -- . && git clean -fdq")
            rc, o = sh(f"git apply {src}/patch.diff")
            how = "git apply"
            if rc != 0:
                rc, o = sh(f"git apply --3way {src}/patch.diff")
                how = "git apply --3way"
                if rc != 0 or "conflict" in o.lower():
                    sh("git checkout -q -- . ; git reset -q --hard")
                    rc, o = sh(f"patch -p1 --fuzz=3 < {src}/patch.diff")
                    how = "patch --fuzz=3"
            if rc != 0:
                sh("git checkout -q -- . ; git reset -q --hard; git clean -fdq")
                out[mid] = {"status": "does-not-apply", "log": o[-300:]}
                print(mid, "DOES NOT APPLY")
                continue
            sh("git reset -q")          # unstage after 3way
            rc_t, o_t = sh(f"{PY} -m pytest -q -p no:cacheprovider -x 2>&1 | tail -1")
            tests_ok = "290 passed" in o_t
            shutil.copy(f"{src}/demo.py", f"{WT}/_demo.py")
            rc_d, o_d = sh(f"{PY} _demo.py")
            _, diff = sh("git diff")
            sh("git checkout -q -- .")
            rc_c, o_c = sh(f"{PY} _demo.py")
            os.remove(f"{WT}/_demo.py")
            ok = tests_ok and rc_d != 0 and rc_c == 0
            out[mid] = {"status": "confirmed" if ok else "rejected", "applied_with": how, "tests": o_t.strip()[-60:],
                        "demo_with_change_rc": rc_d, "demo_clean_rc": rc_c, "demo_msg": o_d.strip().splitlines()[-1][:200] if o_d.strip() else ""}
            print(mid, out[mid]["status"], how, o_t.strip()[-30:], rc_d, rc_c)
            if ok:
                d = f"/verif/seeded/{mid}"
                os.makedirs(d, exist_ok=True)
                open(f"{d}/patch.diff", "w").write(diff)
                shutil.copy(f"{src}/demo.py", f"{d}/demo.py")
                meta = json.load(open(f"{src}/meta.json"))
                meta.update({"id": mid, "property": cid, "verified": out[mid],
                             "what_i_ran": f"in a scratch worktree of /repo HEAD: {how}; pytest (290 passed); demo.py exits {rc_d} with the change and {rc_c} without"})
                json.dump(meta, open(f"{d}/meta.json", "w"), indent=1)
    old = json.load(open("/verif/seeded/import_log.json")) if os.environ.get("IMPORT_ONLY") and os.path.exists("/verif/seeded/import_log.json") else {}
    old.update(out)
    json.dump(old, open("/verif/seeded/import_log.json", "w"), indent=1)


main()
