#!/usr/bin/env python3
"""for every seeded change, run the check of the property it breaks on a scratch worktree and
collect the generated case (module, extra, seed, index) that exposed it; the union is written to
corpus/<Cxx>.json and replayed first on every run, whatever VERIF_SEED is."""
import json, os, subprocess, glob, shutil, collections, concurrent.futures as cf
V = "/verif"


def sh(cmd, cwd=None, env=None):
    p = subprocess.run(cmd, cwd=cwd, shell=True, capture_output=True, text=True, timeout=1800, env=env)
    return p.returncode, p.stdout + p.stderr


def one(args):
    mid, slot = args
    prop = json.load(open(f"{V}/seeded/{mid}/meta.json")).get("property") if os.path.exists(f"{V}/seeded/{mid}/meta.json") else None
    if prop is None or prop == "C20":
        return mid, prop, []
    wt, out = f"/tmp/wt/h{slot}", f"/tmp/wt/outh{slot}"
    if not os.path.exists(wt):
        sh(f"git -C /repo worktree add -q --detach {wt} HEAD")
    sh("git checkout -q -- . && git clean -fdq", cwd=wt)
    if sh(f"git apply {V}/seeded/{mid}/patch.diff", cwd=wt)[0] != 0:
        return mid, prop, []
    shutil.rmtree(out, ignore_errors=True)
    env = dict(os.environ, VERIF_REPO=wt, VERIF_OUT=out, VERIF_JOBS="4", VERIF_SKIP_BUILD="1")
    sh(f"./check {prop} quick", cwd=V, env=env)
    got = []
    for f in glob.glob(f"{out}/replays/{prop}_*.json"):
        r = json.load(open(f))
        if r.get("corpus_key") and r.get("case_index") is not None:
            got.append({"mod": r["corpus_key"]["mod"], "extra": r["corpus_key"]["extra"], "seed": r.get("seed", 0),
                        "idx": r["case_index"], "exposed": mid})
    sh("git checkout -q -- .", cwd=wt)
    return mid, prop, got


def main():
    mids = sorted(d for d in os.listdir(f"{V}/seeded") if os.path.exists(f"{V}/seeded/{d}/patch.diff") and os.path.exists(f"{V}/seeded/{d}/meta.json"))
    only = os.environ.get("HARVEST_ONLY")        # e.g. "C..d[a-d]$": harvest these changes only and MERGE into the existing corpus
    corpus = collections.defaultdict(list)
    if only:
        import re
        mids = [m for m in mids if re.search(only, m)]
        for f in glob.glob(f"{V}/corpus/C*.json"):
            corpus[os.path.basename(f)[:-5]] = json.load(open(f))
    for w in range(0, len(mids), 4):
        with cf.ThreadPoolExecutor(4) as ex:
            for mid, prop, got in ex.map(one, [(m, i) for i, m in enumerate(mids[w:w + 4])]):
                seen = {(e["mod"], tuple(e["extra"]), e["seed"], e["idx"]) for e in corpus[prop]} if prop else set()
                for e in got[:2]:
                    k = (e["mod"], tuple(e["extra"]), e["seed"], e["idx"])
                    if k not in seen:
                        corpus[prop].append(e); seen.add(k)
                print(mid, prop, len(got), flush=True)
    os.makedirs(f"{V}/corpus", exist_ok=True)
    for prop, entries in corpus.items():
        if prop and entries:
            json.dump(entries, open(f"{V}/corpus/{prop}.json", "w"), indent=1)
    for i in range(4):
        sh(f"git -C /repo worktree remove --force /tmp/wt/h{i}")


main()
