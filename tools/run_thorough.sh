#!/bin/sh
# thorough checks, sequentially; prints one line per property. Usage: tools/run_thorough.sh [NN ...]
cd /verif
LIST="$@"
[ -z "$LIST" ] && LIST="02 03 18 17 12 13 11 15 10 08 09 06 07 04 05 14 16 19 20 01"
for n in $LIST; do
  t0=$(date +%s)
  out=$(./check C$n thorough 2>&1); rc=$?
  t1=$(date +%s)
  echo "C$n rc=$rc $((t1-t0))s $(echo "$out" | grep -E 'VIOLATION|OK|INFRA' | head -2 | tr '\n' ' ')"
done
