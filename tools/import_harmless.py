#!/usr/bin/env python3
"""verify the sub-agents' property-PRESERVING rewrites (variant `h`) in a scratch worktree and copy
them to /verif/seeded/harmless/R3_<Cxx>.diff (+ .json); tests must pass and the agent's demo must
exit 0 with and without the change"""
import json, os, subprocess, shutil, sys
VAR = sys.argv[1] if len(sys.argv) > 1 else "h"
PREFIX = sys.argv[2] if len(sys.argv) > 2 else "R3"
WT = "/tmp/wt/verify"
PY = "/venv/bin/python"


def sh(cmd, cwd=WT, timeout=600):
    p = subprocess.run(cmd, cwd=cwd, shell=True, capture_output=True, text=True, timeout=timeout)
    return p.returncode, (p.stdout + p.stderr)


for n in range(1, 21):
    cid = f"C{n:02d}"
    src = f"/tmp/wt/{cid}/out/{VAR}"
    if not (os.path.exists(f"{src}/patch.diff") and os.path.exists(f"{src}/meta.json")):
        continue
    sh("git checkout -q -- . && git clean -fdq")
    rc, o = sh(f"git apply {src}/patch.diff")
    if rc != 0:
        print(cid, VAR, "DOES NOT APPLY", o[-200:]); continue
    rc_t, o_t = sh(f"{PY} -m pytest -q -p no:cacheprovider -x 2>&1 | tail -1")
    rc_d = 0
    if os.path.exists(f"{src}/demo.py"):
        shutil.copy(f"{src}/demo.py", f"{WT}/_demo.py")
        rc_d, _ = sh(f"{PY} _demo.py")
        os.remove(f"{WT}/_demo.py")
    _, diff = sh("git diff")
    sh("git checkout -q -- .")
    ok = "290 passed" in o_t and rc_d == 0
    print(cid, VAR, "ok" if ok else "rejected", o_t.strip()[-30:], rc_d)
    if ok:
        open(f"/verif/seeded/harmless/{PREFIX}_{cid}.diff", "w").write(diff)
        meta = json.load(open(f"{src}/meta.json")) if os.path.exists(f"{src}/meta.json") else {}
        meta["verified"] = "applies to /repo HEAD; 290 tests pass; agent's demo exits 0 with the change"
        json.dump(meta, open(f"/verif/seeded/harmless/{PREFIX}_{cid}.json", "w"), indent=1)
