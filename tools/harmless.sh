#!/bin/sh
# every harmless rewrite × every check (quick): all must exit 0. Uses a scratch worktree (VERIF_REPO);
# C20 (--with-c20 / --only-c20) regenerates Lean facts inside the harness copy: use one lane per copy.
WT=${HWT:-/tmp/wt/s1}
HOUT=${HOUT:-/tmp/wt/outh}
V=${VERIF_DIR:-/verif}
[ -d $WT ] || git -C /repo worktree add -q --detach $WT HEAD
for h in ${HDIR:-$V/seeded/harmless}/${HPAT:-*}.diff; do
  git -C $WT checkout -q -- . ; git -C $WT apply "$h" || { echo "$(basename $h): does not apply"; continue; }
  bad=""
  LIST="01 02 03 04 05 06 07 08 09 10 11 12 13 14 15 16 17 18 19"
  [ -n "$HRELEVANT" ] && LIST=$(python3 $V/tools/relevant_checks.py "$h")     # only the checks that exercise a touched file
  [ "$1" = "--only-c20" ] && LIST=""
  for n in $LIST; do
    out=$(cd $V && VERIF_REPO=$WT VERIF_OUT=$HOUT VERIF_SKIP_BUILD=1 VERIF_JOBS=6 ./check C$n quick 2>&1); rc=$?
    [ $rc -ne 0 ] && bad="$bad C$n(rc=$rc)"
  done
  if [ "$1" = "--with-c20" ] || [ "$1" = "--only-c20" ]; then
    # C20 regenerates Lean facts inside $V/lean: one lane at a time per copy of the harness
    out=$(cd $V && VERIF_REPO=$WT VERIF_OUT=$HOUT ./check C20 quick 2>&1); rc=$?; [ $rc -ne 0 ] && bad="$bad C20(rc=$rc)"
  fi
  echo "$(basename $h): ${bad:-all checks quiet}"
done
git -C $WT checkout -q -- .
