#!/bin/sh
# tools/try_wt.sh <mutant-id> <Cxx>... : apply a seeded change in the scratch worktree /tmp/wt/verify
# (never in /repo) and run the given checks against it (VERIF_REPO); prints the verdict lines
m=$1; shift
WT=/tmp/wt/verify
[ -d $WT ] || git -C /repo worktree add -q --detach $WT HEAD
git -C $WT checkout -q -- . ; git -C $WT apply /verif/seeded/$m/patch.diff || exit 3
for p in "$@"; do
  SKIP=1; [ "$p" = "C20" ] && SKIP=0     # C20 re-generates and re-proves its facts: never skip the build
  (cd /verif && VERIF_REPO=$WT VERIF_OUT=/tmp/wt/outx VERIF_SKIP_BUILD=$SKIP ./check $p ${TIER:-quick} 2>&1 | grep -E "VIOLATION|^OK|INFRA" | cut -c1-260 | head -${NL:-3})
done
git -C $WT checkout -q -- .
