#!/usr/bin/env python3
"""re-verify every seeded change against the current /repo HEAD in the scratch worktree
/tmp/wt/verify: applies (3-way if needed; the stored patch is refreshed), 290 tests pass, demo fails
with the change and passes without"""
import json, os, subprocess, shutil, sys
WT, PY, V = "/tmp/wt/verify", "/venv/bin/python", "/verif/seeded"


def sh(cmd, cwd=WT):
    p = subprocess.run(cmd, cwd=cwd, shell=True, capture_output=True, text=True, timeout=900)
    return p.returncode, p.stdout + p.stderr


bad = []
for mid in sorted(os.listdir(V)):
    d = f"{V}/{mid}"
    if not os.path.exists(f"{d}/patch.diff") or not os.path.exists(f"{d}/demo.py"):
        continue
    sh("git checkout -q -- . ; git reset -q --hard; git clean -fdq")
    rc, o = sh(f"git apply {d}/patch.diff")
    how = "applies"
    if rc != 0:
        rc, o = sh(f"git apply --3way {d}/patch.diff")
        how = "3way"
        sh("git reset -q")
    if rc != 0 or "<<<<<<<" in sh("git diff")[1]:
        print(mid, "DOES NOT APPLY"); bad.append(mid); continue
    _, t = sh(f"{PY} -m pytest -q -p no:cacheprovider 2>&1 | tail -1")
    shutil.copy(f"{d}/demo.py", f"{WT}/_demo.py")
    rd, _ = sh(f"{PY} _demo.py")
    _, diff = sh("git diff")
    sh("git checkout -q -- .")
    rcl, _ = sh(f"{PY} _demo.py")
    os.remove(f"{WT}/_demo.py")
    ok = "290 passed" in t and rd != 0 and rcl == 0
    if ok and how == "3way":
        open(f"{d}/patch.diff", "w").write(diff)
    if not ok:
        bad.append(mid)
    print(mid, "ok" if ok else "REJECTED", how, t.strip()[:14], rd, rcl)
print("problems:", bad)
